(* Proofs about Model/Loader.v (property C07). *)
From WV Require Import Model.Base Model.Loader.
From Coq Require Import Lia Sorted.

(* ---------- sort + dedup ---------- *)

Lemma insert_in x y l : In y (insert_sorted x l) <-> y = x \/ In y l.
Proof.
  induction l as [|a r IH]; cbn [insert_sorted]; [cbn; intuition|].
  destruct (x <=? a); cbn [In]; [intuition|]. rewrite IH. intuition.
Qed.

Lemma sort_in y l : In y (sort_ids l) <-> In y l.
Proof.
  induction l as [|a r IH]; cbn [sort_ids fold_right]; [tauto|].
  fold (sort_ids r). rewrite insert_in, IH. cbn. intuition.
Qed.

Lemma insert_sorted_sorted x l : StronglySorted le l -> StronglySorted le (insert_sorted x l).
Proof.
  induction 1 as [|a r Hs IH Hf]; cbn [insert_sorted]; [repeat constructor|].
  destruct (Nat.leb_spec x a).
  - constructor; [constructor; assumption|]. constructor; [assumption|].
    rewrite Forall_forall in *. intros z Hz. specialize (Hf z Hz). lia.
  - constructor; [assumption|]. rewrite Forall_forall in *. intros z Hz.
    apply insert_in in Hz as [->|Hz]; [lia|auto].
Qed.

Lemma sort_sorted l : StronglySorted le (sort_ids l).
Proof.
  induction l as [|a r IH]; cbn [sort_ids fold_right]; [constructor|].
  now apply insert_sorted_sorted.
Qed.

Lemma dedup_cons a r : dedup_adjacent (a :: r) =
  match r with [] => [a] | b :: _ => if Nat.eqb a b then dedup_adjacent r else a :: dedup_adjacent r end.
Proof. destruct r; reflexivity. Qed.

Lemma dedup_in y l : In y (dedup_adjacent l) <-> In y l.
Proof.
  induction l as [|a r IH]; [tauto|]. rewrite dedup_cons. destruct r as [|b r'].
  - tauto.
  - destruct (Nat.eqb_spec a b) as [->|].
    + rewrite IH. cbn [In]. intuition.
    + cbn [In] in *. rewrite IH. intuition.
Qed.

Lemma dedup_strict l : StronglySorted le l -> StronglySorted lt (dedup_adjacent l).
Proof.
  induction 1 as [|a r Hs IH Hf]; [constructor|]. rewrite dedup_cons. destruct r as [|b r'].
  - repeat constructor.
  - destruct (Nat.eqb_spec a b) as [->|Hne]; [exact IH|].
    constructor; [exact IH|]. rewrite Forall_forall in *. intros z Hz.
    apply (proj1 (dedup_in z (b :: r'))) in Hz.
    apply StronglySorted_inv in Hs as [_ Hb]. rewrite Forall_forall in Hb.
    assert (a <= b) by (apply Hf; now left).
    destruct Hz as [<-|Hz]; [lia|]. specialize (Hb z Hz). lia.
Qed.

Theorem sort_dedup_spec l :
  StronglySorted lt (sort_dedup l) /\ forall y, In y (sort_dedup l) <-> In y l.
Proof.
  split; [apply dedup_strict, sort_sorted|].
  intros y. unfold sort_dedup. now rewrite dedup_in, sort_in.
Qed.

Lemma strict_nodup l : StronglySorted lt l -> NoDup l.
Proof.
  induction 1 as [|a r Hs IH Hf]; constructor; [|assumption].
  intros Hin. rewrite Forall_forall in Hf. specialize (Hf a Hin). lia.
Qed.

Lemma find_app_any {A} (f : A -> bool) l1 l2 :
  find f (l1 ++ l2) = match find f l1 with Some x => Some x | None => find f l2 end.
Proof. induction l1 as [|a r IH]; cbn [app find]; [reflexivity|]. destruct (f a); auto. Qed.

(* ---------- load_signals ---------- *)
Section WithSource.
Variable Sig : Type.
Variable slice_info : nat -> option (nat * nat * nat).
Variable has_tpe : nat -> bool.
Variable inner_load : list nat -> outcome (list Sig).
Variable slice : Sig -> nat -> nat -> outcome Sig.

Notation load_signals := (load_signals Sig slice_info has_tpe inner_load slice).
Notation wave_load := (wave_load Sig slice_info has_tpe inner_load slice).
Notation wave_run := (wave_run Sig slice_info has_tpe inner_load slice).

Lemma map_pairs_fst (ids : list nat) : forall (sigs : list Sig) res,
  length sigs = length ids ->
  outcome_map_pairs
    (fun p => let '(id, sg) := p in
              match slice_info id with
              | Some (msb, lsb, _) => do s <- slice sg msb lsb; Ok (id, s)
              | None => Ok (id, sg)
              end) (combine ids sigs) = Ok res ->
  map fst res = ids.
Proof.
  induction ids as [|i r IH]; intros [|s sr] res Hl H; cbn in *; try discriminate.
  - inversion H. reflexivity.
  - destruct (slice_info i) as [[[m l] p]|].
    + destruct (slice s m l); try discriminate. cbn [bind] in H.
      destruct (outcome_map_pairs _ (combine r sr)) as [rr| |] eqn:E; try discriminate.
      cbn [bind] in H. inversion H; subst. cbn. f_equal. eapply IH; [|exact E]. lia.
    + cbn [bind] in H.
      destruct (outcome_map_pairs _ (combine r sr)) as [rr| |] eqn:E; try discriminate.
      cbn [bind] in H. inversion H; subst. cbn. f_equal. eapply IH; [|exact E]. lia.
Qed.

(* exactly one entry per distinct requested id, in increasing id order, each paired with its own id *)
Theorem load_signals_shape ids res : load_signals ids = Ok res ->
  map fst res = sort_dedup ids.
Proof.
  unfold Loader.load_signals. intros H.
  destruct (forallb has_tpe _); cbn [negb] in H; [|discriminate].
  destruct (inner_load _) as [sigs| |]; try discriminate. cbn [bind] in H.
  destruct (Nat.eqb_spec (length sigs) (length (map (fun id => match slice_info id with
     Some (_, _, p) => p | None => id end) (sort_dedup ids)))) as [E|E]; cbn [negb] in H; [|discriminate].
  rewrite map_length in E. eapply map_pairs_fst; eauto.
Qed.

(* a source whose result for an id is a function of that id alone (true by construction for the
   wavemem Reader: `ids.iter().map(load_signal)`; assumption A-fst for the FST database) *)
Variable content : nat -> outcome Sig.
Hypothesis inner_pointwise : forall ids, inner_load ids = outcome_map_pairs content ids.

Definition final_content (id : nat) : outcome Sig :=
  match slice_info id with
  | Some (msb, lsb, p) => do sg <- content p; slice sg msb lsb
  | None => content id
  end.

Lemma pointwise_pairs : forall (ids : list nat) sigs res,
  outcome_map_pairs content
    (map (fun id => match slice_info id with Some (_, _, p) => p | None => id end) ids) = Ok sigs ->
  outcome_map_pairs
    (fun p => let '(id, sg) := p in
              match slice_info id with
              | Some (msb, lsb, _) => do s <- slice sg msb lsb; Ok (id, s)
              | None => Ok (id, sg)
              end) (combine ids sigs) = Ok res ->
  forall id s, In (id, s) res -> final_content id = Ok s.
Proof.
  induction ids as [|i r IH]; intros sigs res H1 H2 id s Hin; cbn in *.
  - inversion H2; subst. destruct Hin.
  - unfold final_content in *.
    destruct (slice_info i) as [[[m l] p]|] eqn:Ei.
    + destruct (content p) as [sp| |] eqn:Ec; try discriminate. cbn [bind] in H1.
      destruct (outcome_map_pairs content _) as [sr| |] eqn:E1; try discriminate.
      cbn [bind] in H1. inversion H1; subst. cbn in H2. rewrite Ei in H2.
      destruct (slice sp m l) as [ss| |] eqn:Es; try discriminate. cbn [bind] in H2.
      destruct (outcome_map_pairs _ (combine r sr)) as [rr| |] eqn:E2; try discriminate.
      cbn [bind] in H2. inversion H2; subst. apply in_inv in Hin. destruct Hin as [Hin|Hin].
      * inversion Hin; subst. rewrite Ei, Ec. exact Es.
      * eapply IH; eauto.
    + destruct (content i) as [sp| |] eqn:Ec; try discriminate. cbn [bind] in H1.
      destruct (outcome_map_pairs content _) as [sr| |] eqn:E1; try discriminate.
      cbn [bind] in H1. inversion H1; subst. cbn in H2. rewrite Ei in H2. cbn [bind] in H2.
      destruct (outcome_map_pairs _ (combine r sr)) as [rr| |] eqn:E2; try discriminate.
      cbn [bind] in H2. inversion H2; subst. apply in_inv in Hin. destruct Hin as [Hin|Hin].
      * inversion Hin; subst. rewrite Ei. exact Ec.
      * eapply IH; eauto.
Qed.

(* what is returned for an id does not depend on what else was requested, nor on order or repetition *)
Theorem load_signals_content ids res : load_signals ids = Ok res ->
  forall id s, In (id, s) res -> final_content id = Ok s.
Proof.
  unfold Loader.load_signals. intros H.
  destruct (forallb has_tpe _); cbn [negb] in H; [|discriminate].
  rewrite inner_pointwise in H.
  destruct (outcome_map_pairs content _) as [sigs| |] eqn:E1; try discriminate. cbn [bind] in H.
  destruct (negb _); [discriminate|]. eapply pointwise_pairs; eauto.
Qed.

(* ---------- the Waveform: load / unload histories ---------- *)

Definition wave_ok (w : wave Sig) : Prop :=
  forall id s, wave_get Sig w id = Some s -> final_content id = Ok s.

Lemma get_remove_same w id : wave_get Sig (wave_remove Sig w id) id = None.
Proof.
  induction w as [|[k s] r IH]; [reflexivity|]. cbn [wave_remove].
  destruct (Nat.eqb_spec k id); [exact IH|]. cbn [wave_get].
  destruct (Nat.eqb_spec k id); [contradiction|exact IH].
Qed.

Lemma get_remove_other w id id' : id <> id' ->
  wave_get Sig (wave_remove Sig w id) id' = wave_get Sig w id'.
Proof.
  intros Hne. induction w as [|[k s] r IH]; [reflexivity|]. cbn [wave_remove wave_get].
  destruct (Nat.eqb_spec k id) as [->|].
  - destruct (Nat.eqb_spec id id'); [contradiction|exact IH].
  - cbn [wave_get]. destruct (Nat.eqb_spec k id'); [reflexivity|exact IH].
Qed.

Lemma get_insert w id s id' :
  wave_get Sig (wave_insert Sig w id s) id' = if Nat.eqb id id' then Some s else wave_get Sig w id'.
Proof.
  unfold wave_insert. cbn [wave_get]. destruct (Nat.eqb_spec id id'); [reflexivity|].
  now apply get_remove_other.
Qed.

Lemma get_fold_insert res : forall w id',
  wave_get Sig (fold_left (fun w p => wave_insert Sig w (fst p) (snd p)) res w) id' =
  match find (fun p => Nat.eqb (fst p) id') (rev res) with
  | Some p => Some (snd p)
  | None => wave_get Sig w id'
  end.
Proof.
  induction res as [|[k s] r IH]; intros w id'; [reflexivity|].
  cbn [fold_left fst snd]. rewrite IH. cbn [rev]. rewrite find_app_any.
  destruct (find _ (rev r)); [reflexivity|]. cbn [find fst]. rewrite get_insert.
  destruct (Nat.eqb k id'); reflexivity.
Qed.

Lemma get_unload ids : forall w id',
  wave_get Sig (wave_unload Sig w ids) id' = if existsb (Nat.eqb id') ids then None else wave_get Sig w id'.
Proof.
  unfold wave_unload. induction ids as [|i r IH]; intros w id'; [reflexivity|].
  cbn [fold_left existsb]. rewrite IH.
  destruct (existsb (Nat.eqb id') r) eqn:E; [now rewrite Bool.orb_true_r|]. rewrite Bool.orb_false_r.
  destruct (Nat.eqb_spec id' i) as [->|Hne]; [apply get_remove_same|].
  apply get_remove_other. congruence.
Qed.

(* the set of signals a history leaves loaded *)
Fixpoint loaded_after (ops : list wave_op) (l : list nat) : list nat :=
  match ops with
  | [] => l
  | WLoad ids :: r => loaded_after r (ids ++ l)
  | WUnload ids :: r => loaded_after r (filter (fun x => negb (existsb (Nat.eqb x) ids)) l)
  end.

Definition wave_keys (w : wave Sig) (l : list nat) : Prop :=
  forall id, (exists s, wave_get Sig w id = Some s) <-> In id l.

Lemma wave_load_spec w l ids w' : wave_ok w -> wave_keys w l -> wave_load w ids = Ok w' ->
  wave_ok w' /\ wave_keys w' (ids ++ l) /\
  (forall id s, wave_get Sig w id = Some s -> wave_get Sig w' id = Some s).
Proof.
  intros Hok Hkeys H. unfold Loader.wave_load in H.
  set (filtered := filter _ ids) in H.
  destruct (load_signals filtered) as [res| |] eqn:E; try discriminate. cbn [bind] in H.
  inversion H; subst w'; clear H.
  pose proof (load_signals_shape _ _ E) as Hshape.
  pose proof (load_signals_content _ _ E) as Hcont.
  assert (Hfind : forall id', match find (fun p => Nat.eqb (fst p) id') (rev res) with
                              | Some p => In p res /\ fst p = id'
                              | None => ~ In id' (map fst res) end).
  { intros id'. destruct (find _ (rev res)) as [p|] eqn:F.
    - apply find_some in F as [Hin Heq]. apply Nat.eqb_eq in Heq. split; [now apply in_rev|assumption].
    - intros Hin. apply in_map_iff in Hin as ([k s] & Hk & Hin). cbn in Hk. subst k.
      apply in_rev in Hin. apply (find_none _ _ F) in Hin. cbn in Hin. now rewrite Nat.eqb_refl in Hin. }
  assert (Hfilt : forall id', In id' (map fst res) <-> In id' ids /\ wave_get Sig w id' = None).
  { intros id'. rewrite Hshape. rewrite (proj2 (sort_dedup_spec filtered)). unfold filtered.
    rewrite filter_In. destruct (wave_get Sig w id'); intuition congruence. }
  repeat split.
  - intros id s Hg. rewrite get_fold_insert in Hg. specialize (Hfind id).
    destruct (find _ (rev res)) as [[k s']|].
    + destruct Hfind as [Hin Hk]. cbn in Hk, Hg. subst k. inversion Hg; subst. eapply Hcont; eauto.
    + now apply Hok.
  - intros [s Hg]. rewrite get_fold_insert in Hg. specialize (Hfind id).
    apply in_or_app. destruct (find _ (rev res)) as [[k s']|].
    + destruct Hfind as [Hin Hk]. cbn in Hk. subst k. left.
      apply (Hfilt id). apply in_map_iff. exists (id, s'). auto.
    + right. apply Hkeys. eauto.
  - intros Hin. rewrite get_fold_insert. specialize (Hfind id).
    destruct (find _ (rev res)) as [[k s']|]; [eauto|].
    apply in_app_or in Hin as [Hin|Hin]; [|now apply Hkeys].
    destruct (wave_get Sig w id) as [s|] eqn:G; [eauto|].
    exfalso. apply Hfind. apply Hfilt. auto.
  - intros id s Hg. rewrite get_fold_insert. specialize (Hfind id).
    destruct (find _ (rev res)) as [[k s']|]; [|assumption].
    destruct Hfind as [Hin Hk]. cbn in Hk. subst k. exfalso.
    assert (In id (map fst res)) by (apply in_map_iff; exists (id, s'); auto).
    apply Hfilt in H as [_ H]. congruence.
Qed.

(* for every history of load / unload calls: exactly the signals loaded and not since unloaded are
   exposed, each with the content that depends on its id only; loading more never changes the rest *)
Theorem waveform_history ops : forall w l w', wave_ok w -> wave_keys w l -> wave_run w ops = Ok w' ->
  wave_ok w' /\ wave_keys w' (loaded_after ops l).
Proof.
  induction ops as [|[ids|ids] r IH]; intros w l w' Hok Hkeys H; cbn [Loader.wave_run loaded_after] in *.
  - inversion H; subst. auto.
  - destruct (wave_load w ids) as [w1| |] eqn:E; try discriminate. cbn [bind] in H.
    destruct (wave_load_spec w l ids w1 Hok Hkeys E) as (Hok1 & Hk1 & _). eapply IH; eauto.
  - eapply IH; [| |exact H].
    + intros id s Hg. rewrite get_unload in Hg. destruct (existsb _ ids); [discriminate|]. now apply Hok.
    + intros id. rewrite get_unload. rewrite filter_In.
      destruct (existsb (Nat.eqb id) ids) eqn:Ex; cbn [negb].
      * split; [intros [s Hs]; discriminate|intros [_ Hf]; discriminate].
      * rewrite (Hkeys id). intuition.
Qed.

Theorem load_keeps_loaded w l ids w' : wave_ok w -> wave_keys w l -> wave_load w ids = Ok w' ->
  forall id s, wave_get Sig w id = Some s -> wave_get Sig w' id = Some s.
Proof. intros Hok Hk H. now destruct (wave_load_spec w l ids w' Hok Hk H) as (_ & _ & Hkeep). Qed.

End WithSource.
