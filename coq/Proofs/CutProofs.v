(* Property C15, a cut inside a time stamp: the token flushed at the end of the truncated input is a prefix of the token
   the complete input goes on with, so the time it denotes is not larger than the complete file's next time. *)
From WV Require Import Model.Base Generated.Consts Model.Bits Model.VcdBody Proofs.StoreProofs Proofs.BodyProofs Proofs.TokenProofs.
From Coq Require Import Lia.
Open Scope N_scope.

Lemma parse_digits_mono : forall d w acc v v', parse_digits d acc = Some v -> parse_digits (d ++ w) acc = Some v' -> v <= v'.
Proof.
  induction d as [|c d IH]; intros w acc v v' H H'; cbn [app parse_digits] in *.
  - inversion H; subst acc. clear H. revert v H'. induction w as [|c w IHw]; intros v H'; cbn [parse_digits] in H'; [inversion H'; lia|].
    destruct ((48 <=? c) && (c <=? 57)); [|discriminate]. destruct (u64_max <? v * 10 + (c - 48)); [discriminate|].
    specialize (IHw _ H'). nia.
  - destruct ((48 <=? c) && (c <=? 57)); [|discriminate]. destruct (u64_max <? acc * 10 + (c - 48)); [discriminate|]. eapply IH; eauto.
Qed.

Lemma parse_u64_mono d w v v' : parse_u64 d = Some v -> parse_u64 (d ++ w) = Some v' -> v <= v'.
Proof.
  unfold parse_u64. destruct d as [|c d]; [discriminate|]. cbn [app].
  destruct (N.eq_dec c 43) as [->|Hc].
  - destruct d as [|c2 d]; [discriminate|]. cbn [app]. intros H H'. eapply (parse_digits_mono (c2 :: d)); eauto.
  - assert (E : forall (X : list byte) (A B : option N), match c :: X with [] => None | [43] => A | 43 :: _ :: _ => B | _ => parse_digits (c :: X) 0 end = parse_digits (c :: X) 0).
    { intros X A B. destruct c as [|p]; [reflexivity|]. do 6 (destruct p as [p|p|]; try reflexivity); congruence. }
    intros H H'.
    assert (H1 : parse_digits (c :: d) 0 = Some v).
    { rewrite <- H. symmetry. destruct c as [|p]; [reflexivity|]. do 6 (destruct p as [p|p|]; try reflexivity); congruence. }
    assert (H2 : parse_digits (c :: d ++ w) 0 = Some v').
    { rewrite <- H'. symmetry. destruct c as [|p]; [reflexivity|]. do 6 (destruct p as [p|p|]; try reflexivity); congruence. }
    eapply (parse_digits_mono (c :: d)); eauto.
Qed.

(* a token that reads as a time stamp, extended by further characters, reads as a later-or-equal time stamp or not at all *)
Lemma time_token_ext debug first0 v w : parse_first_token debug first0 = Ok (FtTime v) ->
  (exists v', parse_first_token debug (first0 ++ w) = Ok (FtTime v') /\ v <= v') \/ parse_first_token debug (first0 ++ w) = Err.
Proof.
  intros H. destruct w as [|x w]; [rewrite app_nil_r; left; exists v; split; [exact H|lia]|].
  unfold parse_first_token in *.
  destruct (debug && (length first0 <=? 1)%nat) eqn:Ed; [discriminate|].
  assert (Ed' : debug && (length (first0 ++ x :: w) <=? 1)%nat = false).
  { destruct debug; [|reflexivity]. cbn [andb] in *. apply Nat.leb_gt in Ed. apply Nat.leb_gt. rewrite app_length. cbn [length]. lia. }
  rewrite Ed'. destruct first0 as [|c rest]; [discriminate|]. cbn [app].
  destruct (N.eqb_spec c 35) as [->|Hc].
  - destruct (parse_u64 rest) as [v0|] eqn:E0; [|discriminate]. inversion H; subst v0.
    destruct (parse_u64 (rest ++ x :: w)) as [v'|] eqn:E'; [|now right]. left. exists v'. split; [reflexivity|]. eapply parse_u64_mono; eauto.
  - destruct (mem_byte c one_bit_first_chars); [discriminate|]. destruct (mem_byte c multi_bit_first_chars); [discriminate|].
    destruct (bytes_eqb (c :: rest) kw_dumpall) eqn:Ek.
    + apply list_eqb_spec in Ek. inversion Ek; subst c rest. right. reflexivity.
    + destruct (bytes_eqb (c :: rest) kw_comment); [discriminate|].
      destruct (bytes_eqb (c :: rest) kw_dumpvars || bytes_eqb (c :: rest) kw_end || bytes_eqb (c :: rest) kw_dumpoff || bytes_eqb (c :: rest) kw_dumpon); discriminate.
Qed.

(* the machine, cut while a time stamp token is pending, goes on with the rest of the input: either no further event
   is emitted, or the next event is a time stamp that is not smaller *)
Lemma pending_time_next debug stop first0 v : parse_first_token debug first0 = Ok (FtTime v) -> forall b s w,
  ps_state s = ParsingFirstToken -> ps_first s = first0 ++ w -> first0 <> [] ->
  let evs := fst (finish debug (run_bytes debug stop b s)) in
  evs = rev (ps_acc s) \/ exists v' more, evs = rev (ps_acc s) ++ EvTime v' :: more /\ v <= v'.
Proof.
  intros Hp. induction b as [|x b IH]; intros s w Hst Hf Hne; cbn zeta.
  - cbn [run_bytes finish]. unfold eof_flush. rewrite Hst, Hf.
    destruct (first0 ++ w) as [|c rest] eqn:E; [destruct first0; [congruence|discriminate]|]. rewrite <- E.
    destruct (time_token_ext debug first0 v w Hp) as [(v' & Hv' & Hle)|He].
    + rewrite Hv'. cbn [fst]. right. exists v', []. split; [|exact Hle]. rewrite rev_append_rev, app_nil_r. reflexivity.
    + rewrite He. cbn [fst]. left. now rewrite rev_append_rev, app_nil_r.
  - cbn [run_bytes]. rewrite Hst. destruct (is_white_space x) eqn:Ex.
    + rewrite Hf. destruct (first0 ++ w) as [|c rest] eqn:E; [destruct first0; [congruence|discriminate]|]. rewrite <- E.
      destruct (time_token_ext debug first0 v w Hp) as [(v' & Hv' & Hle)|He].
      * rewrite Hv'. destruct (ps_pos s <? _); [cbn [finish fst]; left; now rewrite rev_append_rev, app_nil_r|].
        destruct (stop <? _); [cbn [finish fst]; left; now rewrite rev_append_rev, app_nil_r|].
        pose proof (run_bytes_mono debug stop b (mk_ps (ps_pos s + 1) ParsingFirstToken [] (ps_id s) (EvTime v' :: ps_acc s))) as M.
        right. exists v'. cbn [ps_acc] in M.
        destruct (run_bytes debug stop b _) as [s'|[evs pr]].
        -- destruct M as [m Em]. cbn [finish]. unfold eof_flush.
           assert (P : forall y, exists more, rev_append (y ++ ps_acc s') [] = rev (ps_acc s) ++ EvTime v' :: more).
           { intros y. rewrite rev_append_rev, app_nil_r, Em, !rev_app_distr. cbn [rev]. rewrite <- !app_assoc. cbn [app]. eexists. reflexivity. }
           destruct (ps_state s'); cbn [fst].
           ++ destruct (P []) as [more Em']. exists more. split; [exact Em'|exact Hle].
           ++ destruct (ps_first s') as [|c' rest']; [destruct (P []) as [more Em']; exists more; split; [exact Em'|exact Hle]|].
              destruct (parse_first_token debug (c' :: rest')) as [[t| | | |]| |]; cbn [fst];
                try (destruct (P []) as [more Em']; exists more; split; [exact Em'|exact Hle]);
                try (destruct (P [EvTime t]) as [more Em']; exists more; split; [exact Em'|exact Hle]);
                try (destruct (P [EvValue [c'] rest']) as [more Em']; exists more; split; [exact Em'|exact Hle]).
           ++ destruct (P [EvValue (ps_first s') (ps_id s')]) as [more Em']. exists more. split; [exact Em'|exact Hle].
           ++ destruct (P []) as [more Em']. exists more. split; [exact Em'|exact Hle].
        -- destruct M as [m Em]. cbn [finish fst]. exists m. split; [|exact Hle]. rewrite Em. cbn [rev]. now rewrite <- app_assoc.
      * rewrite He. cbn [finish fst]. left. now rewrite rev_append_rev, app_nil_r.
    + specialize (IH (mk_ps (ps_pos s + 1) ParsingFirstToken (ps_first s ++ [x]) (ps_id s) (ps_acc s)) (w ++ [x]) eq_refl).
      cbn [ps_first ps_acc] in IH. apply IH; [|exact Hne]. rewrite Hf. now rewrite <- app_assoc.
Qed.

(* prefix_events with the relation between a flushed time stamp and the complete input's next event *)
Theorem prefix_events_time debug stop_pos (a b : list byte) :
  exists common tail rest,
    fst (parse_body debug a stop_pos) = common ++ tail /\ fst (parse_body debug (a ++ b) stop_pos) = common ++ rest /\
    (length tail <= 1)%nat /\
    (forall v, tail = [EvTime v] -> rest = [] \/ exists v' r, rest = EvTime v' :: r /\ v <= v').
Proof.
  unfold parse_body. rewrite !parse_loop_run, run_bytes_app. fold init_state.
  pose proof (run_bytes_mono debug stop_pos a init_state) as Ma.
  destruct (run_bytes debug stop_pos a init_state) as [s|[evs pr]].
  - exists (rev (ps_acc s)).
    pose proof (run_bytes_mono debug stop_pos b s) as Mb.
    assert (Hpre : exists rest, fst (finish debug (run_bytes debug stop_pos b s)) = rev (ps_acc s) ++ rest).
    { destruct (run_bytes debug stop_pos b s) as [s'|[evs pr]].
      - destruct Mb as [m E]. cbn [finish]. unfold eof_flush.
        assert (P : forall x, exists rest, rev_append (x ++ ps_acc s') [] = rev (ps_acc s) ++ rest).
        { intros x. rewrite rev_append_rev, app_nil_r, E, !rev_app_distr. eexists. rewrite <- app_assoc. reflexivity. }
        destruct (ps_state s'); cbn [fst];
          try (apply (P [])); try (apply (P [_])).
        destruct (ps_first s') as [|c rest]; [apply (P [])|].
        destruct (parse_first_token debug (c :: rest)) as [[v| | | |]| |]; cbn [fst];
          try (apply (P [])); try (apply (P [_])).
      - destruct Mb as [m E]. cbn [finish fst]. exists m. exact E. }
    destruct Hpre as [rest Hrest].
    cbn [finish]. unfold eof_flush.
    assert (Q0 : rev_append (ps_acc s) [] = rev (ps_acc s) ++ []) by (rewrite rev_append_rev; reflexivity).
    assert (Q1 : forall e, rev_append (e :: ps_acc s) [] = rev (ps_acc s) ++ [e]).
    { intros e. rewrite rev_append_rev. cbn [rev]. now rewrite app_nil_r. }
    destruct (ps_state s) eqn:Est; cbn [fst].
    + exists [], rest. rewrite Q0. repeat split; [exact Hrest|cbn; lia|discriminate].
    + destruct (ps_first s) as [|c frest] eqn:Ef.
      * exists [], rest. rewrite Q0. repeat split; [exact Hrest|cbn; lia|discriminate].
      * destruct (parse_first_token debug (c :: frest)) as [[v| | | |]| |] eqn:Ep; cbn [fst];
          try (exists [], rest; rewrite Q0; repeat split; [exact Hrest|cbn; lia|discriminate]);
          try (eexists [_], rest; rewrite Q1; repeat split; [exact Hrest|cbn; lia|discriminate]).
        exists [EvTime v], rest. rewrite Q1. repeat split; [exact Hrest|cbn; lia|]. intros v0 Hv0. inversion Hv0; subst v0.
        pose proof (pending_time_next debug stop_pos (c :: frest) v Ep b s [] Est ltac:(now rewrite app_nil_r) ltac:(discriminate)) as Hn.
        cbn zeta in Hn. rewrite Hrest in Hn. destruct Hn as [Hn|(v' & more & Hn & Hle)].
        -- left. rewrite <- (app_nil_r (rev (ps_acc s))) in Hn at 2. now apply app_inv_head in Hn.
        -- right. exists v', more. split; [now apply app_inv_head in Hn|exact Hle].
    + eexists [_], rest. rewrite Q1. repeat split; [exact Hrest|cbn; lia|discriminate].
    + exists [], rest. rewrite Q0. repeat split; [exact Hrest|cbn; lia|discriminate].
  - exists evs, [], []. cbn [finish fst]. rewrite app_nil_r. repeat split; [cbn; lia|discriminate].
Qed.
