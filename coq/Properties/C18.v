(* Property C18: the Python binding reports what the Rust API reports. *)
From Coq Require Import Sorted.
From WV Require Import Model.Base Model.Bits Model.WaveMem Model.Signals Model.Py Spec.OffsetSpec Proofs.SignalsProofs Proofs.PyProofs.
Open Scope N_scope.

(* value_at_time(t) is value_at_idx of the latest time step at or before t, None before the first *)
Check value_at_time_spec :
  forall tt s t, StronglySorted N.lt tt -> N.of_nat (length tt) < 4294967296 ->
  value_at_time tt s t = match count_le tt t with O => Ok None | S i => value_at_idx s (N.of_nat i) end.

(* TimeTable indexing follows the Python conventions *)
Check getitem_nonneg : forall tt (i : nat), time_table_getitem tt (Z.of_nat i) = nth_error tt i.
Check getitem_negative :
  forall tt (k : nat), (1 <= k <= length tt)%nat -> time_table_getitem tt (- Z.of_nat k) = nth_error tt (length tt - k).
Check getitem_out_of_range :
  forall tt (i : Z), (i < - Z.of_nat (length tt) \/ Z.of_nat (length tt) <= i)%Z -> time_table_getitem tt i = None.

(* all_changes() lists exactly the changes iter_changes reports - every change of a time step with several changes too -
   each with the time of its time-table index and its value as a Python object *)
Check all_changes_spec :
  forall tt s, sorted (s_idx s) -> run_fits_u16 (s_idx s) ->
  Forall (fun t => (N.to_nat t < length tt)%nat) (s_idx s) ->
  all_changes tt s
  = do l <- observe_signal s; Ok (map (fun x : N * value_kind * list byte => (nth (N.to_nat (fst (fst x))) tt 0, to_py (snd (fst x), snd x))) l).

(* value_at_idx(i) is the value the signal holds at the end of the latest time step <= i that changed it *)
Check value_at_idx_spec :
  forall s i, sorted (s_idx s) -> run_fits_u16 (s_idx s) ->
  (no_change_le (s_idx s) i /\ value_at_idx s i = Ok None) \/
  (exists st e tm nx, group_spec (s_idx s) i st e tm nx /\
     value_at_idx s i = do v <- get_value_at (s_data s) (st + e - 1); Ok (Some (to_py v))).

Print Assumptions value_at_time_spec.
Print Assumptions all_changes_spec.
Print Assumptions value_at_idx_spec.
Print Assumptions getitem_nonneg.
Print Assumptions getitem_negative.
Print Assumptions getitem_out_of_range.
