(* Property C04: storage is transparent.  Pinned so far: the codec layer (packing of 2/4/9-state
   symbols, LEB128) and the time table; the refinement theorem for the whole store (load_encode)
   is not closed - see MANIFEST level_claimed. *)
From WV Require Import Model.Base Model.Bits Model.Leb128 Model.WaveMem Proofs.BitsProofs Proofs.LebProofs Proofs.WaveMemProofs.
Open Scope N_scope.

(* write_n_state followed by the symbol extraction of n_state_to_bit_string is the identity for
   every state kind and every width (right-aligned partial first byte, all residues) *)
Check pack_unpack :
  forall st syms, small_syms st syms ->
  n_state_symbols st (write_n_state_loop st syms 0 None) (length syms) = Ok syms.

Check packed_length :
  forall st syms, length (write_n_state_loop st syms 0 None) = div_ceil (length syms) (per_byte st).

(* a value stored in its own or any wider kind renders as the same (lower-cased) characters *)
Check write_render_wider :
  forall value st st', check_states value = Some st -> states_num st <= states_num st' ->
  exists packed, write_n_state st' value None = Ok packed /\
                 n_state_to_bit_string st' packed (length value) = Ok (map lower value).

Check leb_roundtrip :
  forall v rest, v < 2 ^ 64 -> leb_read (leb_write v ++ rest) = Some (v, rest).

(* the per-signal meta-data word survives encode/decode; the rounded length is never too small *)
Check metadata_roundtrip_uncompressed :
  forall mx, meta_decode (meta_encode (mk_meta Uncompressed mx)) = Ok (mk_meta Uncompressed mx).
Check metadata_roundtrip_compressed :
  forall mx n, n < 4294967264 ->
  meta_decode (meta_encode (meta_compressed mx n)) = Ok (meta_compressed mx n) /\
  match em_comp (meta_compressed mx n) with Compressed len => n <= len | Uncompressed => False end.

Print Assumptions metadata_roundtrip_uncompressed.
Print Assumptions metadata_roundtrip_compressed.
Print Assumptions pack_unpack.
Print Assumptions packed_length.
Print Assumptions write_render_wider.
Print Assumptions leb_roundtrip.
