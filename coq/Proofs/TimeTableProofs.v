(* Proofs about the time table built by Encoder (property C02). *)
From WV Require Import Model.Base Generated.Consts Model.Bits Model.Leb128 Model.WaveMem Spec.TimeSpec.
From Coq Require Import Lia Sorted.
Open Scope N_scope.

Section TT.
Variable parse_f64 : list byte -> option (list byte).
Variable lz_compress : list byte -> list byte.
Variable cap : N.
Hypothesis cap_pos : 1 <= cap.

Notation time_change := (time_change lz_compress cap).
Notation run_op := (run_op parse_f64 lz_compress cap).
Notation run_ops := (run_ops parse_f64 lz_compress cap).
Notation finish_block := (finish_block lz_compress).
Notation enc_finish := (enc_finish lz_compress).

(* the table an encoder has recorded so far: finished blocks, then the block under construction *)
Definition table (e : encoder) : list N := flat_map b_tt (e_blocks e) ++ rev (e_ttr e).

Definition times_of (ops : list enc_op) : list N :=
  flat_map (fun op => match op with OpTime t => [t] | _ => [] end) ops.

(* invariant of every encoder reached by time/value operations *)
Record inv (e : encoder) : Prop := {
  inv_len : e_len e = N.of_nat (length (e_ttr e));
  inv_new : e_ttr e <> [] -> e_new e = true;
  inv_idle : e_ttr e = [] -> e_new e = false;
  inv_last : last_of (table e) = hd_error (e_ttr e) \/ (e_ttr e = [] /\ e_blocks e = [])
}.

Lemma last_of_cons a l : l <> [] -> last_of (a :: l) = last_of l.
Proof. destruct l; [congruence|reflexivity]. Qed.

Lemma last_of_app l x : last_of (l ++ [x]) = Some x.
Proof.
  induction l as [|a l IH]; [reflexivity|]. cbn [app].
  rewrite last_of_cons; [exact IH|destruct l; discriminate].
Qed.

Lemma last_of_app_ne l l' : l' <> [] -> last_of (l ++ l') = last_of l'.
Proof.
  intros H. induction l as [|a l IH]; [reflexivity|]. cbn [app].
  rewrite last_of_cons; [exact IH|]. destruct l; [exact H|discriminate].
Qed.

Lemma last_of_rev_cons x l : last_of (rev (x :: l)) = Some x.
Proof. cbn [rev]. apply last_of_app. Qed.

Lemma last_opt_last_of (l : list N) : last_opt l = last_of l.
Proof. induction l as [|a [|b l] IH]; try reflexivity. exact IH. Qed.

Lemma finish_signals_shape sigs data :
  exists sigs' offs dfin, finish_signals lz_compress sigs data = (sigs', offs, dfin).
Proof.
  destruct (finish_signals lz_compress sigs data) as [[a b] c]. eauto.
Qed.

(* finish_block on an encoder with pending data: never panics, moves the pending table to a block *)
Lemma finish_block_pending e : e_ttr e <> [] -> e_new e = true ->
  exists e', finish_block e = Ok e' /\
             flat_map b_tt (e_blocks e') = table e /\
             (exists t, e_ttr e' = [t]) /\ e_len e' = 1 /\ e_new e' = false /\ e_skip e' = e_skip e.
Proof.
  intros Hne Hnew. unfold WaveMem.finish_block. rewrite Hnew. cbn [negb].
  destruct (finish_signals_shape (e_signals e) []) as (sigs' & offs & dfin & ->).
  destruct (e_ttr e) as [|t r] eqn:E; [congruence|].
  assert (exists s, last_opt (t :: r) = Some s) as [s ->].
  { rewrite last_opt_last_of. clear. revert t. induction r as [|a r IH]; intros t; [eexists; reflexivity|].
    destruct (IH a) as [s Hs]. exists s. exact Hs. }
  cbn [of_option bind hd_error].
  eexists. split; [reflexivity|]. cbn [e_blocks e_ttr e_len e_new e_skip].
  split.
  - unfold table. rewrite E. rewrite flat_map_app. cbn [flat_map b_tt]. rewrite app_nil_r.
    rewrite rev_append_rev, app_nil_r. reflexivity.
  - repeat split; eauto.
Qed.

Lemma time_change_inv e t : inv e ->
  exists e', time_change e t = Ok e' /\ inv e' /\ table e' = accept (table e) t.
Proof.
  intros [Hlen Hnew Hidle Hlast]. unfold WaveMem.time_change.
  assert (Hacc_push : forall e1, e_ttr e1 = [] \/ True -> True) by auto.
  (* the "continue" branch: optionally roll over, then push *)
  assert (Hcont : (hd_error (e_ttr e) = None \/ exists p, hd_error (e_ttr e) = Some p /\ p < t) ->
    exists e', (do e1 <- (if cap <=? e_len e
                          then do e0 <- finish_block e;
                               Ok (mk_enc [] 0 (e_signals e0) (e_new e0) (e_skip e0) (e_blocks e0))
                          else Ok e);
                Ok (mk_enc (t :: e_ttr e1) (e_len e1 + 1) (e_signals e1) true false (e_blocks e1))) = Ok e'
               /\ inv e' /\ table e' = table e ++ [t]).
  { intros Hhd. destruct (N.leb_spec cap (e_len e)) as [Hfull|Hroom].
    - assert (Hne : e_ttr e <> []).
      { intros E. rewrite E in Hlen. cbn in Hlen. lia. }
      destruct (finish_block_pending e Hne (Hnew Hne)) as (e0 & -> & Htab & _ & _ & _ & _).
      cbn [bind]. eexists. split; [reflexivity|]. split.
      + apply Build_inv; cbn [e_len e_ttr e_new e_blocks length].
        * reflexivity.
        * intros _. reflexivity.
        * discriminate.
        * left. unfold table. cbn [e_blocks e_ttr rev app hd_error]. apply last_of_app.
      + unfold table at 1. cbn [e_blocks e_ttr rev app]. rewrite Htab. reflexivity.
    - cbn [bind]. eexists. split; [reflexivity|]. split.
      + apply Build_inv; cbn [e_len e_ttr e_new e_blocks length].
        * rewrite Hlen. lia.
        * intros _. reflexivity.
        * discriminate.
        * left. unfold table. cbn [e_blocks e_ttr hd_error rev]. rewrite app_assoc. apply last_of_app.
      + unfold table. cbn [e_blocks e_ttr rev]. now rewrite app_assoc. }
  destruct (hd_error (e_ttr e)) as [prev|] eqn:Ehd.
  - assert (Hl : last_of (table e) = Some prev).
    { destruct Hlast as [H|[H _]]; [congruence|]. rewrite H in Ehd. discriminate. }
    unfold accept. rewrite Hl.
    destruct (N.compare_spec prev t) as [Heq|Hlt|Hgt].
    + subst. eexists. split; [reflexivity|]. split.
      * apply Build_inv; [exact Hlen|exact Hnew|exact Hidle|].
        left. change (last_of (table e) = hd_error (e_ttr e)). rewrite Ehd. exact Hl.
      * destruct (N.ltb_spec t t); [lia|]. reflexivity.
    + destruct Hcont as (e' & He' & Hinv & Htab); [right; eauto|].
      exists e'. split; [exact He'|]. split; [exact Hinv|].
      destruct (N.ltb_spec prev t); [exact Htab|lia].
    + eexists. split; [reflexivity|]. split.
      * apply Build_inv; [exact Hlen|exact Hnew|exact Hidle|].
        left. change (last_of (table e) = hd_error (e_ttr e)). rewrite Ehd. exact Hl.
      * destruct (N.ltb_spec prev t); [lia|]. reflexivity.
  - assert (Hnil : e_ttr e = []) by (destruct (e_ttr e); [reflexivity|discriminate]).
    destruct Hcont as (e' & He' & Hinv & Htab); [left; reflexivity|].
    exists e'. split; [exact He'|]. split; [exact Hinv|]. rewrite Htab.
    unfold accept. destruct Hlast as [H|[_ Hb]].
    + rewrite H. reflexivity.
    + unfold table. rewrite Hb, Hnil. reflexivity.
Qed.

(* value operations keep the time table and the invariant *)
Lemma with_signal_inv e id f e' : inv e -> with_signal e id f = Ok e' ->
  inv e' /\ table e' = table e.
Proof.
  intros [Hlen Hnew Hidle Hlast] H. unfold with_signal in H.
  destruct (e_ttr e) as [|t r] eqn:E; [discriminate|].
  destruct (e_skip e).
  - inversion H; subst. split; [constructor; rewrite ?E; auto|reflexivity].
  - destruct (nth_error (e_signals e) id); [|discriminate]. cbn [of_option bind] in H.
    destruct (f s (u16_wrap (e_len e - 1))); try discriminate. cbn [bind] in H.
    inversion H; subst. split.
    + constructor; cbn [e_len e_ttr e_new e_blocks]; rewrite ?E; auto; try discriminate.
      unfold table in *. cbn [e_blocks e_ttr]. rewrite E in Hlast. exact Hlast.
    + unfold table. cbn [e_blocks e_ttr]. now rewrite E.
Qed.

Lemma run_op_inv e op e' : inv e -> run_op e op = Ok e' ->
  inv e' /\ table e' = match op with OpTime t => accept (table e) t | _ => table e end.
Proof.
  intros Hinv H. destruct op as [t|id v|id v st|id le]; cbn [WaveMem.run_op] in H.
  - destruct (time_change_inv e t Hinv) as (e'' & He & Hi & Ht). rewrite He in H.
    inversion H; subst. auto.
  - eapply with_signal_inv; eauto.
  - eapply with_signal_inv; eauto.
  - eapply with_signal_inv; eauto.
Qed.

Lemma run_ops_inv ops : forall e e', inv e -> run_ops e ops = Ok e' ->
  inv e' /\ table e' = fold_left accept (times_of ops) (table e).
Proof.
  induction ops as [|op ops IH]; intros e e' Hinv H; cbn [WaveMem.run_ops] in H.
  - inversion H; subst. auto.
  - destruct (run_op e op) as [e1| |] eqn:E1; try discriminate. cbn [bind] in H.
    destruct (run_op_inv e op e1 Hinv E1) as [Hi1 Ht1].
    destruct (IH e1 e' Hi1 H) as [Hi Ht]. split; [exact Hi|]. rewrite Ht, Ht1.
    destruct op; cbn [times_of flat_map app fold_left]; reflexivity.
Qed.

Lemma inv_new_enc tpes : inv (enc_new tpes).
Proof. constructor; cbn; auto. Qed.

(* time_change never panics: timestamps alone cannot crash the store *)
Theorem time_change_total e t : inv e -> exists e', time_change e t = Ok e'.
Proof. intros H. destruct (time_change_inv e t H) as (e' & He & _). eauto. Qed.

(* the table returned by finish is the accepted list of the times fed, for any capacity >= 1 *)
Theorem time_table_spec tpes ops e : run_ops (enc_new tpes) ops = Ok e ->
  exists blocks, enc_finish e = Ok (blocks, accepted (times_of ops)).
Proof.
  intros H. destruct (run_ops_inv ops _ _ (inv_new_enc tpes) H) as [[Hlen Hnew Hidle Hlast] Ht].
  unfold table in Ht at 2. cbn [enc_new e_blocks e_ttr flat_map rev app] in Ht.
  unfold WaveMem.enc_finish.
  destruct (e_ttr e) as [|t r] eqn:E.
  - (* nothing pending *)
    unfold WaveMem.finish_block. rewrite (Hidle eq_refl). cbn [negb bind]. eexists. f_equal. f_equal.
    unfold table in Ht. rewrite E in Ht. cbn [rev] in Ht. rewrite app_nil_r in Ht. exact Ht.
  - assert (Hne : e_ttr e <> []) by (rewrite E; discriminate).
    destruct (finish_block_pending e Hne (Hnew ltac:(discriminate))) as (e0 & -> & Htab & _).
    cbn [bind]. eexists. f_equal. f_equal. rewrite Htab. exact Ht.
Qed.

End TT.

(* ---------- the accepted list is strictly increasing ---------- *)

Lemma last_of_in l x : last_of l = Some x -> In x l.
Proof.
  induction l as [|a l IH]; [discriminate|]. destruct l as [|b l].
  - cbn. intros H. inversion H. auto.
  - intros H. right. apply IH. exact H.
Qed.

Lemma sorted_snoc l t : StronglySorted N.lt l -> (forall x, last_of l = Some x -> x < t) ->
  StronglySorted N.lt (l ++ [t]).
Proof.
  induction l as [|a l IH]; intros Hs Hl; cbn [app].
  - constructor; constructor.
  - apply StronglySorted_inv in Hs as [Hs Hf]. constructor.
    + apply IH; [exact Hs|]. intros x Hx. apply Hl. destruct l; [discriminate|exact Hx].
    + apply Forall_app. split; [exact Hf|]. constructor; [|constructor].
      destruct l as [|b l].
      * apply Hl. reflexivity.
      * destruct (last_of (b :: l)) as [x|] eqn:E.
        -- assert (a < x) by (rewrite Forall_forall in Hf; apply Hf; now apply last_of_in).
           assert (x < t) by (apply Hl; exact E). lia.
        -- exfalso. clear -E. revert b E. induction l as [|c l IH]; intros b E; [discriminate|].
           apply (IH c). exact E.
Qed.

Lemma accept_sorted acc t : StronglySorted N.lt acc -> StronglySorted N.lt (accept acc t).
Proof.
  intros Hs. unfold accept. destruct (last_of acc) as [l|] eqn:E.
  - destruct (N.ltb_spec l t); [|exact Hs]. apply sorted_snoc; [exact Hs|].
    intros x Hx. congruence.
  - apply sorted_snoc; [exact Hs|]. intros x Hx. congruence.
Qed.

Theorem accepted_strict ts : StronglySorted N.lt (accepted ts).
Proof.
  unfold accepted. assert (H : StronglySorted N.lt []) by constructor.
  revert H. generalize (@nil N). induction ts as [|t ts IH]; intros acc H; cbn [fold_left]; [exact H|].
  apply IH. now apply accept_sorted.
Qed.

(* every accepted time is one of the timestamps of the input, and each timestamp greater than
   all earlier ones is accepted *)
Theorem accepted_complete ts t pre : (forall x, In x pre -> x < t) ->
  In t (accepted (pre ++ t :: ts)).
Proof.
  intros Hpre. unfold accepted. rewrite fold_left_app. cbn [fold_left].
  assert (Hin : In t (accept (fold_left accept pre []) t)).
  { assert (Hsub : forall x, In x (fold_left accept pre []) -> In x pre).
    { assert (G : forall acc, (forall x, In x acc -> In x pre \/ In x acc) -> True) by auto.
      clear. assert (forall l acc x, In x (fold_left accept l acc) -> In x l \/ In x acc) as G.
      { induction l as [|a l IH]; intros acc x H; cbn [fold_left] in H; [auto|].
        apply IH in H as [H|H]; [left; now right|].
        unfold accept in H. destruct (last_of acc); [destruct (N.ltb _ _)|];
          try apply in_app_or in H as [H|[H|[]]]; subst; auto; left; now left. }
      intros x H. apply G in H as [H|[]]. exact H. }
    remember (fold_left accept pre []) as acc0 eqn:Eacc.
    unfold accept. destruct (last_of acc0) as [l|] eqn:E.
    - assert (l < t) by (apply Hpre, Hsub; now apply last_of_in).
      destruct (N.ltb_spec l t); [|lia]. apply in_or_app. right. now left.
    - apply in_or_app. right. now left. }
  revert Hin. generalize (accept (fold_left accept pre []) t).
  induction ts as [|a ts IH]; intros acc Hin; cbn [fold_left]; [exact Hin|].
  apply IH. unfold accept. destruct (last_of acc); [destruct (N.ltb _ _)|]; auto using in_or_app.
Qed.

Example accepted_example : accepted [5; 10; 10; 7; 12; 3; 12; 20]%N = [5; 10; 12; 20]%N.
Proof. reflexivity. Qed.

