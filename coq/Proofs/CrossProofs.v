(* The VCD value path (wavemem Encoder) and the FST value path (fst SignalWriter) report the same changes for the
   same values (property C12, value paths of two of the three formats). *)
From Coq Require Import Lia.
From WV Require Import Model.Base Generated.Consts Model.Bits Model.Leb128 Model.WaveMem Model.FstLoad
  Spec.TimeSpec Spec.StoreSpec Proofs.BitsProofs Proofs.StoreProofs Proofs.EncoderProofs Proofs.FstProofs.
Open Scope N_scope.

Lemma check_states_no_b value l : check_states value = Some l -> ~ In 98 value.
Proof.
  unfold check_states. intros H Hin.
  assert (G : forall v u, In 98 v -> check_states_union v u = None).
  { induction v as [|c r IH]; intros u Hi; [destruct Hi|]. destruct Hi as [E|E]; cbn [check_states_union].
    - subst c. reflexivity.
    - destruct (bit_char_to_num c); [now apply IH|reflexivity]. }
  rewrite (G value 0 Hin) in H. discriminate.
Qed.

Lemma strip_0b (c0 c1 : N) (r : list byte) : c1 <> 98 ->
  (match c0 :: c1 :: r with 48 :: 98 :: r2 => Ok r2 | _ => Ok (c0 :: c1 :: r) end : outcome (list byte)) = Ok (c0 :: c1 :: r).
Proof.
  intros H. destruct c0 as [|q]; [reflexivity|].
  do 6 (try destruct q as [q|q|]); try reflexivity.
  all: destruct c1 as [|p]; [reflexivity|].
  all: do 7 (try destruct p as [p|p|]); try reflexivity.
  all: exfalso; apply H; reflexivity.
Qed.

(* a full-width value delivered as FST text and the same value written as `b<value>` in a VCD mean the same *)
Lemma fst_decodes_decodes bits g l s value : (1 <= bits)%nat -> length value = bits ->
  check_states value = Some l -> chars_to_nums value = Some s ->
  decodes bits (g, l, s) (g, RText (98 :: value)).
Proof.
  intros Hb Hlen Hcs Hcn. cbn [decodes fst snd]. split; [reflexivity|].
  destruct (check_states_min value l Hcs) as (nums & Hn & Hs & H8 & Hmin).
  rewrite Hcn in Hn. inversion Hn; subst nums.
  split; [|split; assumption]. exists value.
  split; [|split; assumption].
  unfold normalize, strip_prefix. cbn [is_b N.eqb Pos.eqb orb bind].
  assert (Hnorm : (if (length value <=? 2)%nat then Ok value
                   else match value with 48 :: 98 :: r2 => Ok r2 | _ => Ok value end) = Ok value).
  { destruct value as [|c0 [|c1 r]]; try reflexivity.
    destruct (length (c0 :: c1 :: r) <=? 2)%nat; [reflexivity|].
    apply strip_0b. intros ->. apply (check_states_no_b _ _ Hcs). right. now left. }
  rewrite Hnorm. cbn [bind]. destruct (Nat.eqb_spec bits 1) as [E1|E1].
  - rewrite E1 in Hlen. destruct value as [|c [|c2 r]]; try discriminate. reflexivity.
  - now rewrite Hlen, Nat.eqb_refl.
Qed.

Section Cross.
Variable parse_f64 : list byte -> option (list byte).
Variable lz_compress : list byte -> list byte.
Variable lz_decompress : list byte -> nat -> option (list byte).
Hypothesis lz_ok : forall d n, (length d <= n)%nat -> lz_decompress (lz_compress d) n = Some d.
Variable cap : N.
Hypothesis cap_pos : 1 <= cap.
Hypothesis cap_u16 : cap <= 65536.

(* the same list of (time index, value) changes, once recorded by the VCD encoder (as `b<value>` tokens, in any
   block segmentation) and once delivered to the FST signal writer, is reported identically *)
Theorem vcd_fst_same_report id bits tpes ops e blocks ttb (cs : list (N * list byte)) sw :
  (1 <= bits)%nat -> nth_error tpes id = Some (EncBits bits) -> Forall (op_ok id bits) ops ->
  N.of_nat (count_vcd id ops) * (10 + N.of_nat bits) < 4294967264 ->
  run_ops parse_f64 lz_compress cap (enc_new tpes) ops = Ok e ->
  enc_finish lz_compress e = Ok (blocks, ttb) -> N.of_nat (length ttb) < 4294967296 ->
  recorded id ops [] false = map (fun c : N * list byte => (fst c, RText (98 :: snd c))) cs ->
  Forall (fun c : N * list byte => length (snd c) = bits) cs ->
  sw_run (sw_new (EncBits bits)) (map (fun c : N * list byte => (fst c, FvString (snd c))) cs) = Ok sw ->
  exists sig, load_signal lz_decompress blocks id (EncBits bits) = Ok sig /\
              observe_signal sig = observe_signal (sw_finish sw).
Proof.
  intros Hb Htp Hops Hbud Hrun Hfin Hlen Hrec Hcs Hsw.
  destruct (storage_transparent parse_f64 lz_compress lz_decompress lz_ok cap cap_pos cap_u16 id bits Hb
              tpes ops e blocks ttb Htp Hops Hbud Hrun Hfin Hlen) as (R & sig & Hdec & Hload & Hobs).
  assert (Hok : Forall (fst_change_ok bits) (map (fun c : N * list byte => (fst c, FvString (snd c))) cs)).
  { rewrite Forall_forall in *. intros x Hx. apply in_map_iff in Hx as (c & <- & Hc). exists (snd c). split; [reflexivity|now apply Hcs]. }
  destruct (fst_writer_spec bits Hb _ sw Hok Hsw) as (A & HdecA & HobsA).
  exists sig. split; [exact Hload|]. rewrite Hobs, HobsA. f_equal. f_equal.
  apply (forall2_decodes_fun bits R A _ Hdec). rewrite Hrec.
  clear -HdecA Hcs Hb. revert A HdecA. induction cs as [|c cs IH]; intros A HA; cbn [map] in *.
  - inversion HA. constructor.
  - inversion HA as [|a x A' xs Ha HA']; subst. apply Forall_cons_iff in Hcs as [Hc Hcs].
    constructor; [|now apply IH].
    destruct a as [[g l] s]. destruct Ha as (Hg & value & Hv & Hcsv & Hcn). cbn [fst snd] in *.
    inversion Hv; subst value. subst g. now apply fst_decodes_decodes.
Qed.

End Cross.
