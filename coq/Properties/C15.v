(* Property C15: a truncated VCD loads as a prefix of the complete one.
   Pinned: the parser level (prefix_events, cut_at_token_boundary, parse_loop_run), the store level
   (prefix_history_prefix_report: a history that is a prefix of another is reported as a prefix - time table and
   every bit-vector signal) and their composition for the single-threaded loader (truncated_vcd_prefix_report);
   truncated_at_line_end is the line-boundary clause from the text: a body written one token group per line and cut
   at the end of a line loads as exactly the meaning of the lines present (time table = accepted time stamps of those
   lines, every bit-vector variable = its recorded changes there) and as a prefix of the complete load. For the
   multi-threaded loader the same follows through read_values_mt_equals_st (C03) for bodies in its class.
   truncated_any_cut is the general clause: for a cut at ANY byte, whenever the truncated body loads, its time table is
   the table of the common events plus at most one entry (so the table without its last entry is a prefix of the complete
   table: table_without_last), both reports extend the report of the common events, everything the truncated file adds
   lies at its last time and everything the complete file adds lies at or after it (so the changes before the last time
   are the same: changes_before_last).  Its parser half is prefix_events_time (Proofs/CutProofs.v): the token flushed at
   the end of the truncated input is a prefix of the complete input's next token - a time stamp cut inside its digits
   denotes a time not larger than the complete one.
   NOT proved: that the load of a body cut inside a token never panics - it does (known finding class CutInsideChange,
   D9); the multi-threaded path at arbitrary cuts; decided by the fault enumeration over every cut offset.
   truncated_any_cut_rs is truncated_any_cut for real-valued and string-valued variables. *)
From WV Require Import Model.Base Model.Bits Model.WaveMem Model.VcdBody Spec.TimeSpec Spec.StoreSpec
  Proofs.StoreProofs Proofs.EncoderProofs Proofs.BodyProofs Proofs.VcdStreamProofs Proofs.PrefixProofs
  Proofs.TimeTableProofs Proofs.TokenProofs Proofs.CutProofs Proofs.TilingProofs Proofs.MtProofs Proofs.RealStringEnc Proofs.TruncProofs Proofs.TruncRsProofs.
From Coq Require Import List. Import ListNotations.
Open Scope N_scope.

(* for every body and every cut: the events of the truncated body are a prefix of the events of the
   complete body, plus at most one event flushed at the end of input (a cut damages only the token it falls in) *)
Check prefix_events :
  forall debug stop_pos (a b : list byte),
  exists common tail,
    fst (parse_body debug a stop_pos) = common ++ tail /\ (length tail <= 1)%nat /\
    is_prefix common (fst (parse_body debug (a ++ b) stop_pos)).

(* a cut where no token is pending (e.g. directly after a complete line) is exactly the restriction *)
Check cut_at_token_boundary :
  forall debug stop_pos (a b : list byte) s,
  run_bytes debug stop_pos a init_state = Running s ->
  ps_state s = ParsingFirstToken -> ps_first s = [] ->
  parse_body debug a stop_pos = (rev (ps_acc s), PDone) /\
  is_prefix (rev (ps_acc s)) (fst (parse_body debug (a ++ b) stop_pos)).

(* the byte machine is a fold with early exit followed by the end-of-input flush *)
Check parse_loop_run :
  forall debug stop_pos input pos st first id acc,
  parse_loop debug input pos stop_pos st first id acc
  = finish debug (run_bytes debug stop_pos input (mk_ps pos st first id acc)).

(* a history that stops early is reported as a prefix *)
Check prefix_history_prefix_report :
  forall (parse_f64 : list byte -> option (list byte)) (lz_compress : list byte -> list byte)
         (lz_decompress : list byte -> nat -> option (list byte)),
  (forall d n, (length d <= n)%nat -> lz_decompress (lz_compress d) n = Some d) ->
  forall cap, 1 <= cap -> cap <= 65536 ->
  forall id bits tpes ops more e1 e2 b1 t1 b2 t2,
  (1 <= bits)%nat -> nth_error tpes id = Some (EncBits bits) -> Forall (op_ok id bits) (ops ++ more) ->
  N.of_nat (count_vcd id (ops ++ more)) * (10 + N.of_nat bits) < 4294967264 ->
  run_ops parse_f64 lz_compress cap (enc_new tpes) ops = Ok e1 ->
  run_ops parse_f64 lz_compress cap (enc_new tpes) (ops ++ more) = Ok e2 ->
  enc_finish lz_compress e1 = Ok (b1, t1) -> enc_finish lz_compress e2 = Ok (b2, t2) ->
  N.of_nat (length t2) < 4294967296 ->
  is_prefix t1 t2 /\
  exists s1 s2 l1 l2,
    load_signal lz_decompress b1 id (EncBits bits) = Ok s1 /\ observe_signal s1 = Ok l1 /\
    load_signal lz_decompress b2 id (EncBits bits) = Ok s2 /\ observe_signal s2 = Ok l2 /\
    is_prefix l1 l2.

(* a VCD body cut where no token is pending, through the single-threaded loader *)
Check truncated_vcd_prefix_report :
  forall (parse_f64 : list byte -> option (list byte)) (lz_compress : list byte -> list byte)
         (lz_decompress : list byte -> nat -> option (list byte)),
  (forall d n, (length d <= n)%nat -> lz_decompress (lz_compress d) n = Some d) ->
  forall cap, 1 <= cap -> cap <= 65536 ->
  forall debug tpes lookup (a b : list byte) stop s id bits e1 e2 b1 t1 b2 t2,
  run_bytes debug stop a init_state = Running s -> ps_state s = ParsingFirstToken -> ps_first s = [] ->
  (1 <= bits)%nat -> nth_error tpes id = Some (EncBits bits) ->
  read_single_stream parse_f64 lz_compress cap debug tpes lookup a stop true = Ok e1 ->
  read_single_stream parse_f64 lz_compress cap debug tpes lookup (a ++ b) stop true = Ok e2 ->
  enc_finish lz_compress e1 = Ok (b1, t1) -> enc_finish lz_compress e2 = Ok (b2, t2) ->
  N.of_nat (length t2) < 4294967296 ->
  (forall ops, ops_of lookup true false (fst (parse_body debug (a ++ b) stop)) = Some ops ->
               N.of_nat (count_vcd id ops) * (10 + N.of_nat bits) < 4294967264) ->
  is_prefix t1 t2 /\
  exists s1 s2 l1 l2,
    load_signal lz_decompress b1 id (EncBits bits) = Ok s1 /\ observe_signal s1 = Ok l1 /\
    load_signal lz_decompress b2 id (EncBits bits) = Ok s2 /\ observe_signal s2 = Ok l2 /\
    is_prefix l1 l2.


Check truncated_at_line_end :
  forall (parse_f64 : list byte -> option (list byte)) (lz_compress : list byte -> list byte)
         (lz_decompress : list byte -> nat -> option (list byte)),
  (forall d n, (length d <= n)%nat -> lz_decompress (lz_compress d) n = Some d) ->
  forall cap, 1 <= cap -> cap <= 65536 ->
  forall debug tpes lookup (A B : list line) id bits b1 t1 b2 t2,
  Forall line_ok (A ++ B) -> (1 <= bits)%nat -> nth_error tpes id = Some (EncBits bits) ->
  read_values_st parse_f64 lz_compress cap debug tpes lookup (body A) = Ok (b1, t1) ->
  read_values_st parse_f64 lz_compress cap debug tpes lookup (body A ++ bytes_of B) = Ok (b2, t2) ->
  N.of_nat (length t2) < 4294967296 ->
  (forall ops, ops_of lookup true false (evs (A ++ B)) = Some ops ->
               N.of_nat (count_vcd id ops) * (10 + N.of_nat bits) < 4294967264) ->
  is_prefix t1 t2 /\
  exists ops1 R s1 s2 l2,
    ops_of lookup true false (evs A) = Some ops1 /\ t1 = accepted (times_of ops1) /\
    Forall2 (decodes bits) R (recorded id ops1 [] false) /\
    load_signal lz_decompress b1 id (EncBits bits) = Ok s1 /\ observe_signal s1 = outcome_map render_of (dedup R) /\
    load_signal lz_decompress b2 id (EncBits bits) = Ok s2 /\ observe_signal s2 = Ok l2 /\
    exists l1, observe_signal s1 = Ok l1 /\ is_prefix l1 l2.

Check body_app : forall A B, body (A ++ B) = body A ++ bytes_of B.


(* a cut at ANY byte: whenever the truncated body loads, table and report are those of the common events plus at most one
   table entry and changes at the last time only *)
Check truncated_any_cut :
  forall (parse_f64 : list byte -> option (list byte)) (lz_compress : list byte -> list byte)
         (lz_decompress : list byte -> nat -> option (list byte)),
  (forall d n, (length d <= n)%nat -> lz_decompress (lz_compress d) n = Some d) ->
  forall cap, 1 <= cap -> cap <= 65536 ->
  forall debug tpes lookup (a b : list byte) stop id bits e1 e2 b1 t1 b2 t2,
  (1 <= bits)%nat -> nth_error tpes id = Some (EncBits bits) ->
  read_single_stream parse_f64 lz_compress cap debug tpes lookup a stop true = Ok e1 ->
  read_single_stream parse_f64 lz_compress cap debug tpes lookup (a ++ b) stop true = Ok e2 ->
  enc_finish lz_compress e1 = Ok (b1, t1) -> enc_finish lz_compress e2 = Ok (b2, t2) ->
  N.of_nat (length t1) < 4294967296 -> N.of_nat (length t2) < 4294967296 ->
  (forall x ops, (x = a \/ x = a ++ b) -> ops_of lookup true false (fst (parse_body debug x stop)) = Some ops ->
               N.of_nat (count_vcd id ops) * (10 + N.of_nat bits) < 4294967264) ->
  exists T0 L0 s1 s2 extra rest2,
    is_prefix T0 t1 /\ is_prefix T0 t2 /\ (length t1 <= length T0 + 1)%nat /\
    load_signal lz_decompress b1 id (EncBits bits) = Ok s1 /\ observe_signal s1 = Ok (L0 ++ extra) /\
    load_signal lz_decompress b2 id (EncBits bits) = Ok s2 /\ observe_signal s2 = Ok (L0 ++ rest2) /\
    Forall (fun x : N * value_kind * list byte => fst (fst x) = N.of_nat (length t1) - 1) extra /\
    Forall (fun x : N * value_kind * list byte => N.of_nat (length t1) - 1 <= fst (fst x)) rest2.


(* the same for real-valued and string-valued variables *)
Check truncated_any_cut_rs :
  forall (parse_f64 : list byte -> option (list byte)),
  (forall r le, parse_f64 r = Some le -> length le = 8%nat) ->
  forall (lz_compress : list byte -> list byte) (lz_decompress : list byte -> nat -> option (list byte)),
  (forall d n, (length d <= n)%nat -> lz_decompress (lz_compress d) n = Some d) ->
  forall cap, 1 <= cap -> cap <= 65536 ->
  forall debug tpes lookup (a b : list byte) stop id str e1 e2 b1 t1 b2 t2,
  nth_error tpes id = Some (rs_tpe str) ->
  read_single_stream parse_f64 lz_compress cap debug tpes lookup a stop true = Ok e1 ->
  read_single_stream parse_f64 lz_compress cap debug tpes lookup (a ++ b) stop true = Ok e2 ->
  enc_finish lz_compress e1 = Ok (b1, t1) -> enc_finish lz_compress e2 = Ok (b2, t2) ->
  N.of_nat (length t1) < 4294967296 -> N.of_nat (length t2) < 4294967296 ->
  (forall x ops, (x = a \/ x = a ++ b) -> ops_of lookup true false (fst (parse_body debug x stop)) = Some ops ->
               Forall (rs_op_ok id str) ops /\ ops_cost id ops < 4294967264) ->
  exists T0 L0 s1 s2 extra rest2,
    is_prefix T0 t1 /\ is_prefix T0 t2 /\ (length t1 <= length T0 + 1)%nat /\
    load_signal lz_decompress b1 id (rs_tpe str) = Ok s1 /\ observe_signal s1 = Ok (L0 ++ extra) /\
    load_signal lz_decompress b2 id (rs_tpe str) = Ok s2 /\ observe_signal s2 = Ok (L0 ++ rest2) /\
    Forall (fun x : N * value_kind * list byte => fst (fst x) = N.of_nat (length t1) - 1) extra /\
    Forall (fun x : N * value_kind * list byte => N.of_nat (length t1) - 1 <= fst (fst x)) rest2.

(* ... hence the entries before the truncated file's last time are the same in both reports *)
Check changes_before_last :
  forall k L0 extra rest2,
  Forall (fun x : N * value_kind * list byte => fst (fst x) = k) extra ->
  Forall (fun x : N * value_kind * list byte => k <= fst (fst x)) rest2 ->
  before k (L0 ++ extra) = before k (L0 ++ rest2).
Check (eq_refl : before = fun k l => filter (fun x => fst (fst x) <? k) l).

(* the parser half: a flushed time stamp is a prefix of the complete file's next token *)
Check prefix_events_time :
  forall debug stop_pos (a b : list byte),
  exists common tail rest,
    fst (parse_body debug a stop_pos) = common ++ tail /\ fst (parse_body debug (a ++ b) stop_pos) = common ++ rest /\
    (length tail <= 1)%nat /\
    (forall v, tail = [EvTime v] -> rest = [] \/ exists v' r, rest = EvTime v' :: r /\ v <= v').

Check @table_without_last :
  forall A (T0 t1 t2 : list A), is_prefix T0 t1 -> (length t1 <= length T0 + 1)%nat -> is_prefix T0 t2 -> is_prefix (removelast t1) t2.

Print Assumptions prefix_events.
Print Assumptions truncated_any_cut.
Print Assumptions truncated_any_cut_rs.
Print Assumptions changes_before_last.
Print Assumptions prefix_events_time.
Print Assumptions table_without_last.
Print Assumptions truncated_at_line_end.
Print Assumptions body_app.
Print Assumptions prefix_history_prefix_report.
Print Assumptions truncated_vcd_prefix_report.
Print Assumptions cut_at_token_boundary.
Print Assumptions parse_loop_run.
