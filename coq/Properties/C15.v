(* Property C15: a truncated VCD loads as a prefix of the complete one.
   Pinned: the parser level (prefix_events, cut_at_token_boundary, parse_loop_run), the store level
   (prefix_history_prefix_report: a history that is a prefix of another is reported as a prefix - time table and
   every bit-vector signal) and their composition for the single-threaded loader (truncated_vcd_prefix_report);
   truncated_at_line_end is the line-boundary clause from the text: a body written one token group per line and cut
   at the end of a line loads as exactly the meaning of the lines present (time table = accepted time stamps of those
   lines, every bit-vector variable = its recorded changes there) and as a prefix of the complete load. For the
   multi-threaded loader the same follows through read_values_mt_equals_st (C03) for bodies in its class.
   NOT proved: cuts inside a token (the at most one extra event of prefix_events can be a damaged value: known finding
   class CutInsideChange), real / string variables, the multi-threaded path; decided by the fault enumeration over every
   cut offset (MANIFEST level_note). *)
From WV Require Import Model.Base Model.Bits Model.WaveMem Model.VcdBody Spec.TimeSpec Spec.StoreSpec
  Proofs.StoreProofs Proofs.EncoderProofs Proofs.BodyProofs Proofs.VcdStreamProofs Proofs.PrefixProofs
  Proofs.TimeTableProofs Proofs.TokenProofs Proofs.TilingProofs Proofs.MtProofs Proofs.TruncProofs.
From Coq Require Import List. Import ListNotations.
Open Scope N_scope.

(* for every body and every cut: the events of the truncated body are a prefix of the events of the
   complete body, plus at most one event flushed at the end of input (a cut damages only the token it falls in) *)
Check prefix_events :
  forall debug stop_pos (a b : list byte),
  exists common tail,
    fst (parse_body debug a stop_pos) = common ++ tail /\ (length tail <= 1)%nat /\
    is_prefix common (fst (parse_body debug (a ++ b) stop_pos)).

(* a cut where no token is pending (e.g. directly after a complete line) is exactly the restriction *)
Check cut_at_token_boundary :
  forall debug stop_pos (a b : list byte) s,
  run_bytes debug stop_pos a init_state = Running s ->
  ps_state s = ParsingFirstToken -> ps_first s = [] ->
  parse_body debug a stop_pos = (rev (ps_acc s), PDone) /\
  is_prefix (rev (ps_acc s)) (fst (parse_body debug (a ++ b) stop_pos)).

(* the byte machine is a fold with early exit followed by the end-of-input flush *)
Check parse_loop_run :
  forall debug stop_pos input pos st first id acc,
  parse_loop debug input pos stop_pos st first id acc
  = finish debug (run_bytes debug stop_pos input (mk_ps pos st first id acc)).

(* a history that stops early is reported as a prefix *)
Check prefix_history_prefix_report :
  forall (parse_f64 : list byte -> option (list byte)) (lz_compress : list byte -> list byte)
         (lz_decompress : list byte -> nat -> option (list byte)),
  (forall d n, (length d <= n)%nat -> lz_decompress (lz_compress d) n = Some d) ->
  forall cap, 1 <= cap -> cap <= 65536 ->
  forall id bits tpes ops more e1 e2 b1 t1 b2 t2,
  (1 <= bits)%nat -> nth_error tpes id = Some (EncBits bits) -> Forall (op_ok id bits) (ops ++ more) ->
  N.of_nat (count_vcd id (ops ++ more)) * (10 + N.of_nat bits) < 4294967264 ->
  run_ops parse_f64 lz_compress cap (enc_new tpes) ops = Ok e1 ->
  run_ops parse_f64 lz_compress cap (enc_new tpes) (ops ++ more) = Ok e2 ->
  enc_finish lz_compress e1 = Ok (b1, t1) -> enc_finish lz_compress e2 = Ok (b2, t2) ->
  N.of_nat (length t2) < 4294967296 ->
  is_prefix t1 t2 /\
  exists s1 s2 l1 l2,
    load_signal lz_decompress b1 id (EncBits bits) = Ok s1 /\ observe_signal s1 = Ok l1 /\
    load_signal lz_decompress b2 id (EncBits bits) = Ok s2 /\ observe_signal s2 = Ok l2 /\
    is_prefix l1 l2.

(* a VCD body cut where no token is pending, through the single-threaded loader *)
Check truncated_vcd_prefix_report :
  forall (parse_f64 : list byte -> option (list byte)) (lz_compress : list byte -> list byte)
         (lz_decompress : list byte -> nat -> option (list byte)),
  (forall d n, (length d <= n)%nat -> lz_decompress (lz_compress d) n = Some d) ->
  forall cap, 1 <= cap -> cap <= 65536 ->
  forall debug tpes lookup (a b : list byte) stop s id bits e1 e2 b1 t1 b2 t2,
  run_bytes debug stop a init_state = Running s -> ps_state s = ParsingFirstToken -> ps_first s = [] ->
  (1 <= bits)%nat -> nth_error tpes id = Some (EncBits bits) ->
  read_single_stream parse_f64 lz_compress cap debug tpes lookup a stop true = Ok e1 ->
  read_single_stream parse_f64 lz_compress cap debug tpes lookup (a ++ b) stop true = Ok e2 ->
  enc_finish lz_compress e1 = Ok (b1, t1) -> enc_finish lz_compress e2 = Ok (b2, t2) ->
  N.of_nat (length t2) < 4294967296 ->
  (forall ops, ops_of lookup true false (fst (parse_body debug (a ++ b) stop)) = Some ops ->
               N.of_nat (count_vcd id ops) * (10 + N.of_nat bits) < 4294967264) ->
  is_prefix t1 t2 /\
  exists s1 s2 l1 l2,
    load_signal lz_decompress b1 id (EncBits bits) = Ok s1 /\ observe_signal s1 = Ok l1 /\
    load_signal lz_decompress b2 id (EncBits bits) = Ok s2 /\ observe_signal s2 = Ok l2 /\
    is_prefix l1 l2.


Check truncated_at_line_end :
  forall (parse_f64 : list byte -> option (list byte)) (lz_compress : list byte -> list byte)
         (lz_decompress : list byte -> nat -> option (list byte)),
  (forall d n, (length d <= n)%nat -> lz_decompress (lz_compress d) n = Some d) ->
  forall cap, 1 <= cap -> cap <= 65536 ->
  forall debug tpes lookup (A B : list line) id bits b1 t1 b2 t2,
  Forall line_ok (A ++ B) -> (1 <= bits)%nat -> nth_error tpes id = Some (EncBits bits) ->
  read_values_st parse_f64 lz_compress cap debug tpes lookup (body A) = Ok (b1, t1) ->
  read_values_st parse_f64 lz_compress cap debug tpes lookup (body A ++ bytes_of B) = Ok (b2, t2) ->
  N.of_nat (length t2) < 4294967296 ->
  (forall ops, ops_of lookup true false (evs (A ++ B)) = Some ops ->
               N.of_nat (count_vcd id ops) * (10 + N.of_nat bits) < 4294967264) ->
  is_prefix t1 t2 /\
  exists ops1 R s1 s2 l2,
    ops_of lookup true false (evs A) = Some ops1 /\ t1 = accepted (times_of ops1) /\
    Forall2 (decodes bits) R (recorded id ops1 [] false) /\
    load_signal lz_decompress b1 id (EncBits bits) = Ok s1 /\ observe_signal s1 = outcome_map render_of (dedup R) /\
    load_signal lz_decompress b2 id (EncBits bits) = Ok s2 /\ observe_signal s2 = Ok l2 /\
    exists l1, observe_signal s1 = Ok l1 /\ is_prefix l1 l2.

Check body_app : forall A B, body (A ++ B) = body A ++ bytes_of B.

Print Assumptions prefix_events.
Print Assumptions truncated_at_line_end.
Print Assumptions body_app.
Print Assumptions prefix_history_prefix_report.
Print Assumptions truncated_vcd_prefix_report.
Print Assumptions cut_at_token_boundary.
Print Assumptions parse_loop_run.
