(* Property C12: the same waveform loads identically from VCD, FST and GHW.
   Pinned: vcd_fst_same_report - the value paths of VCD (wavemem Encoder, any block segmentation) and FST (SignalWriter
   with widening) report the same changes for the same (time index, value) list, for bit vectors of width >= 1;
   same_meaning_same_report - two histories of VCD text changes and / or pre-packed raw changes (what the GHW reader
   delivers) whose recorded values mean the same symbols at the same time indices are reported identically;
   vcd_fst_same_report_rs - the same for real and string variables between the wavemem store and the FST writer.
   vcd_fst_same_calls (Proofs/TreeAgree.v) - the tree clause for VCD and FST: one list of declarations (scopes with their
   kind, variables with kind, width, signal and reference text `name {[i]} [msb:lsb]`), declared by VCD header commands
   (any keyword of the kind, any size text and identifier code denoting width and signal) and by FST hierarchy entries (any
   type code converted to the kind and stored the same way: enc_classes_agree - every code but RealParameter), makes the
   two front ends call the hierarchy builder identically up to component and direction - same names, array scopes,
   nesting, order, kinds, widths, bit ranges, signals; vcd_fst_same_tree: hence the two hierarchies are equal up to
   component and direction (hier_run_erase, Proofs/EraseProofs.v: the builder never looks at either, it only stores them).  It composes C09's handle_decls_direct (header text -> calls) and
   C10's fst_design_calls (entries -> calls).
   shaped_calls_same_tree: the same principle for the shape alone (names, nesting, order, widths, ranges, signals), for any two
   front ends - the form in which it applies to the GHW loader, whose kinds and type names differ from the other two formats'.
   NOT proved: that the GHW hierarchy reader (modelled and tied to the code: C11) makes calls of the same shape as the VCD and
   FST front ends for the same declarations, and that the GHW section reader / vector buffer
   delivers the packed form of what the file encodes (time_step_spec, ve_set_spec and ve_get_spec, Properties/C11.v, are
   the per-step facts), the time tables of whole files; those are decided by the three-format file generators (MANIFEST
   level_note). *)
From WV Require Import Model.Base Model.Bits Model.WaveMem Model.FstLoad Spec.TimeSpec Spec.StoreSpec
  Proofs.StoreProofs Proofs.EncoderProofs Proofs.FstProofs Proofs.CrossProofs Proofs.RealStringEnc Proofs.FstRealString
  Generated.Consts Model.Hierarchy Model.VcdBody Model.VcdHeader Model.FstHier Proofs.CmdProofs Proofs.FstHierProofs Proofs.EraseProofs Proofs.TreeAgree.
Open Scope N_scope.

Check vcd_fst_same_report :
  forall (parse_f64 : list byte -> option (list byte)) (lz_compress : list byte -> list byte)
         (lz_decompress : list byte -> nat -> option (list byte)),
  (forall d n, (length d <= n)%nat -> lz_decompress (lz_compress d) n = Some d) ->
  forall cap, 1 <= cap -> cap <= 65536 ->
  forall id bits tpes ops e blocks ttb (cs : list (N * list byte)) sw,
  (1 <= bits)%nat -> nth_error tpes id = Some (EncBits bits) -> Forall (op_ok id bits) ops ->
  N.of_nat (count_vcd id ops) * (10 + N.of_nat bits) < 4294967264 ->
  run_ops parse_f64 lz_compress cap (enc_new tpes) ops = Ok e ->
  enc_finish lz_compress e = Ok (blocks, ttb) -> N.of_nat (length ttb) < 4294967296 ->
  recorded id ops [] false = map (fun c : N * list byte => (fst c, RText (98 :: snd c))) cs ->
  Forall (fun c : N * list byte => length (snd c) = bits) cs ->
  sw_run (sw_new (EncBits bits)) (map (fun c : N * list byte => (fst c, FvString (snd c))) cs) = Ok sw ->
  exists sig, load_signal lz_decompress blocks id (EncBits bits) = Ok sig /\
              observe_signal sig = observe_signal (sw_finish sw).

Check same_meaning_same_report :
  forall (parse_f64 : list byte -> option (list byte)) (lz_compress : list byte -> list byte)
         (lz_decompress : list byte -> nat -> option (list byte)),
  (forall d n, (length d <= n)%nat -> lz_decompress (lz_compress d) n = Some d) ->
  forall cap, 1 <= cap -> cap <= 65536 ->
  forall id bits tpes1 tpes2 ops1 ops2 e1 e2 b1 t1 b2 t2,
  (1 <= bits)%nat ->
  nth_error tpes1 id = Some (EncBits bits) -> nth_error tpes2 id = Some (EncBits bits) ->
  Forall (op_ok id bits) ops1 -> Forall (op_ok id bits) ops2 ->
  N.of_nat (count_vcd id ops1) * (10 + N.of_nat bits) < 4294967264 ->
  N.of_nat (count_vcd id ops2) * (10 + N.of_nat bits) < 4294967264 ->
  run_ops parse_f64 lz_compress cap (enc_new tpes1) ops1 = Ok e1 ->
  run_ops parse_f64 lz_compress cap (enc_new tpes2) ops2 = Ok e2 ->
  enc_finish lz_compress e1 = Ok (b1, t1) -> N.of_nat (length t1) < 4294967296 ->
  enc_finish lz_compress e2 = Ok (b2, t2) -> N.of_nat (length t2) < 4294967296 ->
  Forall2 (fun ra rb => fst ra = fst rb /\ exists syms, means bits (snd ra) syms /\ means bits (snd rb) syms)
          (recorded id ops1 [] false) (recorded id ops2 [] false) ->
  exists s1 s2, load_signal lz_decompress b1 id (EncBits bits) = Ok s1 /\
                load_signal lz_decompress b2 id (EncBits bits) = Ok s2 /\
                observe_signal s1 = observe_signal s2.

Check vcd_fst_same_report_rs :
  forall (parse_f64 : list byte -> option (list byte)),
  (forall r le, parse_f64 r = Some le -> length le = 8%nat) ->
  forall (lz_compress : list byte -> list byte) (lz_decompress : list byte -> nat -> option (list byte)),
  (forall d n, (length d <= n)%nat -> lz_decompress (lz_compress d) n = Some d) ->
  forall cap, 1 <= cap -> cap <= 65536 -> forall id str tpes ops e blocks ttb changes sw,
  nth_error tpes id = Some (rs_tpe str) ->
  Forall (rs_op_ok id str) ops ->
  ops_cost id ops < 4294967264 ->
  run_ops parse_f64 lz_compress cap (enc_new tpes) ops = Ok e ->
  enc_finish lz_compress e = Ok (blocks, ttb) -> N.of_nat (length ttb) < 4294967296 ->
  Forall (fst_rs_ok str) changes ->
  sw_run (sw_new (rs_tpe str)) changes = Ok sw ->
  Forall2 (fun (c : N * fst_value) r => gdecodes parse_f64 str (fst c, fv_payload (snd c)) r)
          changes (recorded_rs id ops [] false) ->
  exists sig, load_signal lz_decompress blocks id (rs_tpe str) = Ok sig /\
              observe_signal sig = observe_signal (sw_finish sw).

(* the tree clause, VCD and FST *)
Check vcd_fst_same_calls :
  forall cs ds fs st st' calls,
  Forall2 vcd_renders cs ds -> Forall2 fst_renders cs fs ->
  design_calls st fs = Some (st', calls) ->
  Forall2 same_op (direct_ops ds) (concat (map hier_op_of calls)).
Check vcd_fst_same_tree :
  forall cs ds fs st st' calls b_vcd b_fst,
  Forall2 vcd_renders cs ds -> Forall2 fst_renders cs fs ->
  design_calls st fs = Some (st', calls) ->
  hier_run hb_new (direct_ops ds) = Ok b_vcd ->
  hier_run hb_new (concat (map hier_op_of calls)) = Ok b_fst ->
  erase_b b_vcd = erase_b b_fst.
Check hier_run_erase : forall ops b, hier_run (erase_b b) (map erase_op ops) = omap erase_b (hier_run b ops).
Check (eq_refl : erase_b = fun b =>
  mk_builder (map erase_var (hb_vars b)) (map erase_scope (hb_scopes b)) (hb_first b) (hb_stack b) (hb_handles b)).
Check (eq_refl : erase_scope = fun s =>
  mk_scope (sc_name s) None (sc_tpe s) (sc_decl s) (sc_child s) (sc_parent s) (sc_next s)).
Check (eq_refl : erase_var = fun v =>
  mk_var (v_name v) (v_tpe v) 0 (v_enc v) (v_index v) (v_signal v) (v_type_name v) (v_parent v) (v_next v)).

(* for any two front ends (GHW included): builder calls that agree in shape - names, nesting, order, encodings and widths, bit
   ranges, signals - build hierarchies that agree in shape, whatever the kinds, components, directions and type names *)
Check shaped_calls_same_tree :
  forall ops1 ops2 b1 b2,
  map shape_op ops1 = map shape_op ops2 ->
  hier_run hb_new ops1 = Ok b1 -> hier_run hb_new ops2 = Ok b2 ->
  shape_b b1 = shape_b b2.
Check hier_run_shape : forall ops b, hier_run (shape_b b) (map shape_op ops) = omap shape_b (hier_run b ops).
Check (eq_refl : shape_op = fun op =>
  match op with
  | HScope nm _ _ _ f => HScope nm None 0 None f
  | HVar nm _ _ e i s _ => HVar nm 0 0 e i s None
  | HPop => HPop
  end).
Check enc_classes_agree :
  forall t raw w, t < 256 -> t <> 4 -> n_get fst_var_tab t = Some raw -> var_enc t w = vcd_enc raw w.
Check same_calls_example.
Check (eq_refl : vcd_renders = fun c d =>
  match c, d with
  | CScope k nm, CmdProofs.DScope kw nm' => nm' = nm /\ lookup_bytes kw scope_kw = Some k
  | CUp, CmdProofs.DUp => True
  | CVar vk w sig ref, CmdProofs.DVar tpe size id r0 rest =>
      r0 :: rest = ref /\ lookup_bytes tpe var_kw = Some vk /\ parse_uint size u32_max = Some w /\ sref_direct id = sig
  | _, _ => False
  end).
Check (eq_refl : fst_renders = fun c f =>
  match c, f with
  | CScope k nm, FstHierProofs.DScope t nm' comp stems => nm' = nm /\ stems = [] /\ n_get fst_scope_tab t = Some k
  | CUp, FstHierProofs.DUp => True
  | CVar vk w sig ref, FstHierProofs.DVar t dir nm len h attrs =>
      nm = ref /\ len = w /\ h = sig /\ attrs = [] /\ n_get fst_var_tab t = Some vk /\ var_enc t w = vcd_enc vk w
  | _, _ => False
  end).
Check (eq_refl : same_op = fun a b =>
  match a, b with
  | HScope n _ t d f, HScope n' _ t' d' f' => n = n' /\ t = t' /\ d = d' /\ f = f'
  | HVar n t _ e i s tn, HVar n' t' _ e' i' s' tn' => n = n' /\ t = t' /\ e = e' /\ i = i' /\ s = s' /\ tn = tn'
  | HPop, HPop => True
  | _, _ => False
  end).

Print Assumptions vcd_fst_same_calls.
Print Assumptions vcd_fst_same_tree.
Print Assumptions hier_run_erase.
Print Assumptions shaped_calls_same_tree.
Print Assumptions hier_run_shape.
Print Assumptions enc_classes_agree.
Print Assumptions vcd_fst_same_report.
Print Assumptions vcd_fst_same_report_rs.
Print Assumptions same_meaning_same_report.
