(* Extraction of the executable model to OCaml.  Only ExtrOcamlBasic is used
   (bool, option, unit, prod, list, sumbool mapped to OCaml's own types);
   nat, positive, N and Z stay the extracted inductive datatypes; no Extract Constant. *)
Require Extraction.
Require Import ExtrOcamlBasic.
From WV Require Import Generated.Consts Model.Base Model.Signals Model.Bits Model.Leb128 Model.WaveMem Model.VcdBody Model.FstLoad Model.Hierarchy Model.Detect Model.Slice Model.Loader Model.VcdHeader Model.Py Model.Ghw Model.GhwAlias Model.Serde Generated.SerdeSchema Model.FstHier Model.GhwHier Model.GhwFile.
Extraction Language OCaml.
Cd "extract/gen".
Separate Extraction Generated.Consts Model.Base Model.Signals Model.Bits Model.Leb128 Model.WaveMem Model.VcdBody Model.FstLoad Model.Hierarchy Model.Detect Model.Slice Model.Loader Model.VcdHeader Model.Py Model.Ghw Model.GhwAlias Model.Serde Generated.SerdeSchema Model.FstHier Model.GhwHier Model.GhwFile BinNat.N.add BinNat.N.mul BinNat.N.div_eucl BinNat.N.of_nat BinNat.N.to_nat.
