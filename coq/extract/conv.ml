(* Conversions between OCaml native values and the extracted datatypes.
   Part of the trusted base of the correspondence check. *)
open BinNums
open Datatypes

let rec pos_of_int (i : int) : positive =
  if i <= 1 then Coq_xH
  else if i land 1 = 1 then Coq_xI (pos_of_int (i lsr 1))
  else Coq_xO (pos_of_int (i lsr 1))

let n_of_int (i : int) : coq_N = if i <= 0 then N0 else Npos (pos_of_int i)

let rec int_of_pos (p : positive) : int =
  match p with
  | Coq_xH -> 1
  | Coq_xO q -> 2 * int_of_pos q
  | Coq_xI q -> 2 * int_of_pos q + 1

let int_of_n (n : coq_N) : int = match n with N0 -> 0 | Npos p -> int_of_pos p

let rec nat_of_int (i : int) : nat = 
  let rec go acc i = if i <= 0 then acc else go (S acc) (i - 1) in go O i

let int_of_nat (n : nat) : int =
  let rec go acc n = match n with O -> acc | S m -> go (acc + 1) m in go 0 n

(* hexadecimal, arbitrary size: bits, most significant first *)
let n_of_hex (s : string) : coq_N =
  let bits = Buffer.create 64 in
  Stdlib.String.iter (fun c ->
    let v = match c with
      | '0'..'9' -> Char.code c - 48
      | 'a'..'f' -> Char.code c - 87
      | 'A'..'F' -> Char.code c - 55
      | _ -> failwith ("bad hex digit in " ^ s) in
    for k = 3 downto 0 do
      Buffer.add_char bits (if (v lsr k) land 1 = 1 then '1' else '0')
    done) s;
  let b = Buffer.contents bits in
  (* build positive from most significant bit *)
  let n = Stdlib.String.length b in
  let rec skip i = if i < n && b.[i] = '0' then skip (i + 1) else i in
  let start = skip 0 in
  if start >= n then N0
  else begin
    let p = ref Coq_xH in
    for i = start + 1 to n - 1 do
      p := if b.[i] = '1' then Coq_xI !p else Coq_xO !p
    done;
    Npos !p
  end

let hex_of_n (n : coq_N) : string =
  match n with
  | N0 -> "0"
  | Npos p ->
    (* collect bits least significant first *)
    let rec bits p acc = match p with
      | Coq_xH -> 1 :: acc
      | Coq_xO q -> bits q (0 :: acc)
      | Coq_xI q -> bits q (1 :: acc) in
    (* bits returns most significant first since we cons while descending towards msb: fix order *)
    let rec lsb_first p = match p with
      | Coq_xH -> [1]
      | Coq_xO q -> 0 :: lsb_first q
      | Coq_xI q -> 1 :: lsb_first q in
    ignore bits;
    let l = Array.of_list (lsb_first p) in
    let n = Array.length l in
    let digits = (n + 3) / 4 in
    let buf = Buffer.create digits in
    for d = digits - 1 downto 0 do
      let v = ref 0 in
      for k = 3 downto 0 do
        let idx = d * 4 + k in
        v := !v * 2 + (if idx < n then l.(idx) else 0)
      done;
      Buffer.add_char buf "0123456789abcdef".[!v]
    done;
    Buffer.contents buf

(* byte strings are hex encoded, two digits per byte; "-" is the empty string *)
let bytes_of_hex (s : string) : coq_N list =
  if s = "-" then [] else begin
    let n = Stdlib.String.length s / 2 in
    Stdlib.List.init n (fun i -> n_of_int (int_of_string ("0x" ^ Stdlib.String.sub s (2 * i) 2)))
  end

let hex_of_bytes (l : coq_N list) : string =
  if l = [] then "-" else
  Stdlib.String.concat "" (Stdlib.List.map (fun b -> Printf.sprintf "%02x" (int_of_n b)) l)

let split_on c s = if s = "" || s = "-" then [] else Stdlib.String.split_on_char c s
