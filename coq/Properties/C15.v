(* Property C15: a truncated VCD loads as a prefix of the complete one (parser level). *)
From WV Require Import Model.Base Model.VcdBody Proofs.BodyProofs.

(* for every body and every cut: the events of the truncated body are a prefix of the events of the
   complete body, plus at most one event flushed at the end of input (a cut damages only the token it falls in) *)
Check prefix_events :
  forall debug stop_pos (a b : list byte),
  exists common tail,
    fst (parse_body debug a stop_pos) = common ++ tail /\ (length tail <= 1)%nat /\
    is_prefix common (fst (parse_body debug (a ++ b) stop_pos)).

(* a cut where no token is pending (e.g. directly after a complete line) is exactly the restriction *)
Check cut_at_token_boundary :
  forall debug stop_pos (a b : list byte) s,
  run_bytes debug stop_pos a init_state = Running s ->
  ps_state s = ParsingFirstToken -> ps_first s = [] ->
  parse_body debug a stop_pos = (rev (ps_acc s), PDone) /\
  is_prefix (rev (ps_acc s)) (fst (parse_body debug (a ++ b) stop_pos)).

(* the byte machine is a fold with early exit followed by the end-of-input flush *)
Check parse_loop_run :
  forall debug stop_pos input pos st first id acc,
  parse_loop debug input pos stop_pos st first id acc
  = finish debug (run_bytes debug stop_pos input (mk_ps pos st first id acc)).

Print Assumptions prefix_events.
Print Assumptions cut_at_token_boundary.
Print Assumptions parse_loop_run.
